// F6: an incoming Call with unparsable params panics the whole process
// ("Annotate on nil error") from the Conn's receive goroutine.
//
// Defect (/repo/rpc/rpc.go, Conn.handleCall):
//
//	parseErr := c.parseCall(&p, call)
//	...
//	ret, send, releaseRet, err := c.newReturn(ctx)
//	if err != nil { ...; return nil }
//	// here err == nil
//	...
//	if parseErr != nil {
//		parseErr = annotate(err).errorf("incoming call")   // <-- should be annotate(parseErr)
//
// annotate(nil).errorf calls errors.Annotate("rpc", ..., nil), and
// /repo/internal/errors/errors.go has
//
//	if err == nil { panic("Annotate on nil error") }
//
// The panic happens on the goroutine started by rpc.NewConn, so the
// application cannot recover it: any remote peer can crash the process with
// a single malformed Call.
//
// Failing input (first and only message on a fresh connection):
//
//	Call{questionId: 1, target: importedCap 0, params: {content: empty struct,
//	     capTable: [receiverHosted(99)]}}
//
// Export 99 does not exist, so recvCap fails for descriptor 0, recvPayload
// returns an error (nothing to release since i == 0, so F19 is not
// involved), parseCall returns it, and the branch above is taken.
//
// Correct behaviour: the Conn answers with Return{answerId: 1, exception}
// (and/or reports the error) and keeps running.
//
// Because the panic cannot be recovered, the scenario is run in a child
// process: the test re-executes its own test binary with F06_CHILD=1.
package zdemo

import (
	"context"
	"fmt"
	"os"
	"os/exec"
	"strings"
	"testing"
	"time"

	"capnproto.org/go/capnp/v3"
	"capnproto.org/go/capnp/v3/rpc"
	rpccp "capnproto.org/go/capnp/v3/std/capnp/rpc"
)

func TestF06_IncomingCallParseErrorPanicsProcess(t *testing.T) {
	if os.Getenv("F06_CHILD") == "1" {
		f06Child(t)
		return
	}
	ctx, cancel := context.WithTimeout(context.Background(), 20*time.Second)
	defer cancel()
	cmd := exec.CommandContext(ctx, os.Args[0], "-test.run=^TestF06_IncomingCallParseErrorPanicsProcess$", "-test.count=1", "-test.v")
	cmd.Env = append(os.Environ(), "F06_CHILD=1")
	out, err := cmd.CombinedOutput()
	if ctx.Err() != nil {
		t.Fatalf("child process timed out; output:\n%s", out)
	}
	s := string(out)
	if strings.Contains(s, "panic:") {
		t.Fatalf("DEFECT F6: a single malformed incoming Call crashed the process (child exit: %v).  Child output (head):\n%s",
			err, head(s, 14))
	}
	if err != nil {
		t.Fatalf("child failed for another reason: %v\n%s", err, s)
	}
	if !strings.Contains(s, "F06-CHILD-OK") {
		t.Fatalf("child did not run the scenario:\n%s", s)
	}
}

func f06Child(t *testing.T) {
	p1, p2 := newFakePipe()
	conn := rpc.NewConn(p1, &rpc.Options{ErrorReporter: errorLog{t}})
	err := peerSend(p2, func(seg *capnp.Segment) (*rpcMessage, error) {
		params, err := capnp.NewStruct(seg, capnp.ObjectSize{})
		if err != nil {
			return nil, err
		}
		return &rpcMessage{Which: rpccp.Message_Which_call, Call: &rpcCall{
			QuestionID:  1,
			Target:      rpcMessageTarget{Which: rpccp.MessageTarget_Which_importedCap, ImportedCap: 0},
			InterfaceID: testInterfaceID,
			MethodID:    testMethodID,
			Params: rpcPayload{
				Content:  params.ToPtr(),
				CapTable: []rpcCapDescriptor{{Which: rpccp.CapDescriptor_Which_receiverHosted, ReceiverHosted: 99}},
			},
		}}, nil
	})
	if err != nil {
		t.Fatal(err)
	}
	// With the defect present the process dies here.
	m, err := peerRecv(p2, hangTimeout)
	if err != nil {
		t.Fatalf("peer: no reply to the malformed call: %v", err)
	}
	if m.Which != rpccp.Message_Which_return || m.Return.AnswerID != 1 || m.Return.Which != rpccp.Return_Which_exception {
		t.Fatalf("peer: got %v message (%+v); want Return{answerId: 1, exception}", m.Which, m.Return)
	}
	fmt.Printf("F06-CHILD-OK: conn replied with exception %q\n", m.Return.Exception.Reason)
	closeConnBestEffort(t, conn)
}

// head returns the first n lines of s.
func head(s string, n int) string {
	lines := strings.SplitN(s, "\n", n+1)
	if len(lines) > n {
		lines = lines[:n]
	}
	return strings.Join(lines, "\n")
}
