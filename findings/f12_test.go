// F12: strquote.Append does not escape the double-quote, single-quote and
// backslash bytes.
//
// Defect (/repo/internal/strquote/strquote.go):
//
//	func needsEscape(b byte) bool { return b < 0x20 || b >= 0x7f }
//
// Append has switch cases that emit \" \' and \\ but they are unreachable
// because needsEscape returns false for those three bytes.  The result is
// not a valid Cap'n Proto string literal (and is ambiguous); it is what
// TextList.String, Struct text marshalling (encoding/text) etc. emit.
//
// Failing input:  a"b\c
// Actual output:  "a"b\c"
// Correct output: "a\"b\\c"
package zdemo

import (
	"testing"

	"capnproto.org/go/capnp/v3/internal/strquote"
)

func TestF12_StrquoteDoesNotEscapeQuoteOrBackslash(t *testing.T) {
	in := []byte("a\"b\\c")
	got := string(strquote.Append(nil, in))
	want := `"a\"b\\c"`
	if got != want {
		t.Fatalf("DEFECT F12: strquote.Append(nil, %q) = %s; want %s", in, got, want)
	}
}
