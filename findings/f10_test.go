// F10: the stream transport never notices partial writes, so it keeps
// writing after a torn message.
//
// Defect (/repo/rpc/transport.go, (*transport).NewMessage, send closure):
//
//	if err = s.c.Encode(ctx, msg); err != nil {
//		if _, ok := err.(partialWriteError); ok {     // <-- never true
//			s.err.Set(errors.New(errors.Disconnected, "rpc stream transport", "broken due to partial write"))
//		}
//
// ctxWriteCloser.Write does wrap short writes in partialWriteError, but the
// error then travels through capnp.Encoder.Encode (/repo/message.go), which
// flattens every write error with errorf("encode: %v", err).  The type
// assertion on the result can therefore never succeed, transport.err is
// never set, and the "Check if stream is broken" guards at the top of
// NewMessage/send/RecvMessage are dead code.
//
// Failing history: stream whose first Write accepts only 3 of the 8 header
// bytes and returns an error; all later Writes succeed.
//
//	tr := rpc.NewStreamTransport(rwc)
//	_, send, release, _ := tr.NewMessage(ctx); send()   // error (fine), 3 bytes on the wire
//	_, send, release, err := tr.NewMessage(ctx)         // should fail: stream is broken
//	send()                                              // writes a whole message after the torn one
//
// Correct behaviour: after the partial write the transport refuses further
// messages with "rpc stream transport: broken due to partial write" and
// writes nothing more.  Actual: NewMessage and send succeed; the byte stream
// now contains 3 garbage bytes followed by a message, i.e. the peer is
// permanently out of frame.
package zdemo

import (
	"context"
	"errors"
	"io"
	"sync"
	"testing"

	"capnproto.org/go/capnp/v3/rpc"
)

// tornWriter accepts only the first `accept` bytes of the first Write and
// fails it; later writes succeed.  Reads block until Close.
type tornWriter struct {
	mu      sync.Mutex
	accept  int
	writes  int
	written []byte
	closed  chan struct{}
	once    sync.Once
}

func (w *tornWriter) Write(p []byte) (int, error) {
	w.mu.Lock()
	defer w.mu.Unlock()
	w.writes++
	if w.writes == 1 {
		n := w.accept
		if n > len(p) {
			n = len(p)
		}
		w.written = append(w.written, p[:n]...)
		return n, errors.New("tornWriter: connection hiccup")
	}
	w.written = append(w.written, p...)
	return len(p), nil
}

func (w *tornWriter) Read(p []byte) (int, error) {
	<-w.closed
	return 0, io.EOF
}

func (w *tornWriter) Close() error {
	w.once.Do(func() { close(w.closed) })
	return nil
}

func (w *tornWriter) total() int {
	w.mu.Lock()
	defer w.mu.Unlock()
	return len(w.written)
}

func TestF10_StreamTransportIgnoresPartialWrite(t *testing.T) {
	rwc := &tornWriter{accept: 3, closed: make(chan struct{})}
	tr := rpc.NewStreamTransport(rwc)
	defer tr.Close()
	ctx := context.Background()

	// Message 1: torn.
	msg, send, release, err := tr.NewMessage(ctx)
	if err != nil {
		t.Fatalf("NewMessage #1: %v", err)
	}
	if _, err := msg.NewAbort(); err != nil {
		t.Fatal(err)
	}
	err = send()
	release()
	if err == nil {
		t.Fatal("send #1 succeeded although the writer failed")
	}
	t.Logf("send #1: %v", err)
	torn := rwc.total()
	if torn != 3 {
		t.Fatalf("bytes on the wire after torn message = %d; want 3", torn)
	}

	// Message 2: the transport must refuse.
	msg, send, release, err = tr.NewMessage(ctx)
	if err != nil {
		t.Logf("NewMessage #2 refused: %v (correct)", err)
		return
	}
	t.Errorf("DEFECT F10: NewMessage after a partial write succeeded; want \"broken due to partial write\" error")
	if _, err := msg.NewAbort(); err != nil {
		t.Fatal(err)
	}
	err = send()
	release()
	if err == nil {
		t.Errorf("DEFECT F10: send #2 succeeded and wrote %d more bytes after the 3-byte torn message: the stream is out of frame",
			rwc.total()-torn)
	} else {
		t.Logf("send #2: %v", err)
	}
}
