// F4: capnp.Promise.Join writes into a nil map of the parent promise.
//
// Defect (/repo/answer.go, Promise.Join):
//
//	for path, cp := range p.clients {
//		parent.clients[path] = append(parent.clients[path], cp...)
//	}
//
// parent.clients is lazily created by Future.Client; if nobody ever
// asked the parent promise for a client it is still nil, and the
// assignment panics.
//
// Failing history:
//
//	p1 := capnp.NewPromise(...)
//	_   = p1.Answer().Client()   // p1.clients now has one entry
//	p2 := capnp.NewPromise(...)  // p2.clients == nil
//	p1.Join(p2.Answer())         // panic: assignment to entry in nil map
//
// Correct behaviour: Join moves p1's pipelined clients over to p2 (allocating
// the map if needed) and returns normally.
//
// Note: the panic happens while p1.mu and p2.mu are held (p1.mu is released
// by the deferred Unlock, p2.mu is not), so p2 must not be used afterwards.
package zdemo

import (
	"testing"
	"time"

	"capnproto.org/go/capnp/v3"
)

func TestF04_PromiseJoinNilMap(t *testing.T) {
	p1 := capnp.NewPromise(capnp.Method{}, dummyPipelineCaller{})
	_ = p1.Answer().Client()
	p2 := capnp.NewPromise(capnp.Method{}, dummyPipelineCaller{})

	done := make(chan interface{}, 1)
	go func() {
		defer func() { done <- recover() }()
		p1.Join(p2.Answer())
	}()
	select {
	case r := <-done:
		if r != nil {
			t.Fatalf("DEFECT F4: Promise.Join panicked: %v", r)
		}
	case <-time.After(2 * time.Second):
		t.Fatal("Promise.Join did not return within 2s")
	}
}
