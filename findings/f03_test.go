// F3: capnp.Future.Client leaks Promise.mu when returning a cached client.
//
// Defect (/repo/answer.go, Future.Client, `case p.isUnresolved():`):
//
//	if row := p.clients[cpath]; len(row) > 0 {
//		return row[0].client // <-- p.mu is still locked here
//	}
//
// Every other exit of Future.Client unlocks p.mu; this one does not.
//
// Failing history:
//
//	p  := capnp.NewPromise(capnp.Method{}, pipelineCaller)
//	c1 := p.Answer().Client() // creates and caches the pipelined client
//	c2 := p.Answer().Client() // returns the cached client, p.mu stays locked
//	p.Fulfill(capnp.Ptr{})     // blocks forever on p.mu.Lock()
//
// Correct behaviour: the second Client() call returns the same client
// with p.mu released, and Fulfill returns promptly.
package zdemo

import (
	"testing"
	"time"

	"capnproto.org/go/capnp/v3"
)

func TestF03_FutureClientLeaksPromiseLock(t *testing.T) {
	p := capnp.NewPromise(capnp.Method{}, dummyPipelineCaller{})
	c1 := p.Answer().Client()
	c2 := p.Answer().Client()
	if c1 != c2 {
		t.Logf("note: second Client() did not return the cached client (c1=%p c2=%p)", c1, c2)
	}

	done := make(chan interface{}, 1)
	go func() {
		defer func() { done <- recover() }()
		p.Fulfill(capnp.Ptr{})
	}()
	select {
	case r := <-done:
		if r != nil {
			t.Fatalf("Fulfill panicked: %v", r)
		}
	case <-time.After(2 * time.Second):
		t.Fatal("DEFECT F3: Promise.Fulfill did not return within 2s after two Answer().Client() calls: " +
			"Future.Client returned the cached client without unlocking Promise.mu")
	}
	// Only reached once the defect is fixed.
	p.ReleaseClients()
}
